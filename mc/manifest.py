"""Regenerates /verif/MANIFEST.json from the table below (run: /venv/bin/python -m mc.manifest)."""
import json
import os
import subprocess

VERIF = os.path.dirname(os.path.dirname(os.path.abspath(__file__)))
IDS = ["C%02d" % i for i in range(1, 21)]

# id -> (level text, level note / trusted base, technique, design section)
CHECKS = {
 "C01": ("bounded-exhaustive exploration of the real non-shear contribution classes on a duck-typed calculator: BFS over the deviation lattice of 10 input alphabets (<=2 deviations quick; <=4 on small shapes and <=3 on all shapes thorough), every configuration compared with 40-digit numerical derivatives of the free energy itself",
         "alphabets of analytic spectra (exact gamma, V dgamma/dV); CODATA constants from scipy; mpmath differentiation; values outside the alphabets are covered only through the formulas' structure",
         "deviation-bounded exhaustive enumeration of input alphabets on the implementation, oracle = mpmath derivatives of F_ph", "6 C01"),
 "C02": ("same lattice as C01 plus heat-capacity fields for all 9 ordered non-shear index pairs; all 15 shear keys through the real task list (full set, singletons, pairs) for adiabatic==isothermal bit-identity",
         "as C01; C_V is a supplied positive field", "deviation-bounded exhaustive enumeration + exhaustive key enumeration through the real task list", "6 C02"),
 "C03": ("complete over a basis: 15 shear keys x 4 strain fields x (21 unit tensors + 210 pairwise sums + 1 generic) with exact components from an independent einsum rotation, plus all 48 sign/column-order variants of the eigenframe; linear map => exact on a basis is exact everywhere",
         "numpy einsum/LAPACK; frame taken from the implementation after independent validation", "exhaustive enumeration over a basis of the 21-dim tensor space x all keys", "6 C03"),
 "C04": ("explicit-state exploration of request histories on the real task list: all ordered requests of length <=2 (<=3 thorough), complements, 22 (+210) orders of the full set, all 6 axis relabellings, 5 strain fields; thorough: all 2^15 shear subsets with/without non-shear keys; per-key values compared across all histories before merging, against sam_ref, isotropy, dependency order",
         "duck-typed calculator; sam_ref reference recursion; 21! orders not enumerated (cone-independence premise checked per execution)", "history BFS (operation sequences) on the implementation with differential + reference oracles", "6 C04"),
 "C10": ("complete enumeration of the finite domain (81 tuples, 36 Voigt pairs, all spellings, 81x81 equality pairs, out-of-range neighbours) with the orbit graph explored by BFS; decides the property outright because the domain is finite",
         "reference orbits from voigt_ref (union of generator images); CPython hashing", "exhaustive enumeration of the finite index domain + BFS of the orbit graph against a reference quotient", "6 C10"),
}
PENDING_REASON = "check not built yet (work in progress; planned per DESIGN.md §6)"


def main():
    done = [i for i in IDS if i in CHECKS and os.path.exists(os.path.join(VERIF, "mc", "props", i.lower() + ".py"))]
    try:
        commits = subprocess.run(["git", "-C", "/repo", "log", "--format=%h %s", "15cbc51..HEAD"], capture_output=True, text=True).stdout.strip().splitlines()
    except Exception:
        commits = []
    man = {
        "version": 1,
        "setup_cmd": "./setup.sh",
        "hooks": {
            "guard": "CIJ_VERIF",
            "enable": "no source hooks: cij is pure Python and every check imports it from /repo's working tree (sys.path[0]=$VERIF_REPO, default /repo, asserted); CIJ_VERIF=1 is exported by ./check but read by no line of /repo",
            "baseline_off_cmd": "cd /repo && /venv/bin/python -m pytest -ra -q -p no:cacheprovider --timeout=900 --continue-on-collection-errors",
            "source_commits": [],
            "add_only": True,
        },
        "engines": [{
            "name": "mc", "path": "mc/", "serves_properties": done,
            "kind_free_text": "hand-written explicit-state / bounded-exhaustive explorer in Python driving the real cij code: deviation-lattice BFS over finite alphabets (mode A) and history BFS over operation sequences on real objects (mode B), with independent reference models (mc/ref)"}],
        "checks": [],
        "not_applicable": [],
        "notes": "All checks: ./check <ID> --tier quick|thorough; exit 0/1(VIOLATION)/2(HARNESS-ERROR). Unguarded fix: commits in /repo (genuine defects repaired): " + "; ".join(commits) + ". See DESIGN.md and known_findings.json.",
    }
    for i in done:
        t = CHECKS[i]
        man["checks"].append({
            "property_id": i, "quick_cmd": f"./check {i} --tier quick", "thorough_cmd": f"./check {i} --tier thorough",
            "evidence_file": f"evidence/{i}.json", "replay_cmd_template": f"./check {i} --replay {{path}}", "engine": "mc",
            "level_claimed": {"category": "model_checking", "text": t[0], "design_ref": "DESIGN.md §" + t[3]},
            "level_note": t[1], "technique": t[2]})
    for i in IDS:
        if i not in done:
            man["not_applicable"].append({"property_id": i, "reason": PENDING_REASON})
    if not man["not_applicable"]:
        del man["not_applicable"]
    import jsonschema
    with open("/root/.vp/MANIFEST.schema.json") as fp:
        jsonschema.validate(man, json.load(fp))
    with open(os.path.join(VERIF, "MANIFEST.json"), "w") as fp:
        json.dump(man, fp, indent=1)
    print("MANIFEST.json written:", len(done), "checks,", len(man.get("not_applicable", [])), "pending")


if __name__ == "__main__":
    main()
