#!/bin/bash
# Offline setup: verify interpreter and imports, create output dirs. numba's on-disk cache is the one shipped
# next to the installed qha package (a private shared cache written concurrently by 16 workers got corrupted once).
set -e
cd "$(dirname "$0")"
mkdir -p evidence replays
export PYTHONDONTWRITEBYTECODE=1 PYTHONPATH="$PWD"
/venv/bin/python -B -W ignore - <<'PY'
import sys
sys.path.insert(0, "/repo")
import numpy, scipy, pandas, sympy, mpmath, networkx, jsonschema, yaml, click, pint, qha
import cij
from mc import explore, run
print("setup ok: python", sys.version.split()[0], "cij from", cij.__file__)
PY
