#!/bin/bash
# Offline setup: verify interpreter and imports, create output dirs, warm numba's cache dir.
set -e
cd "$(dirname "$0")"
mkdir -p evidence replays
export PYTHONDONTWRITEBYTECODE=1 PYTHONPATH=/verif NUMBA_CACHE_DIR=/dev/shm/cij-verif-numba
mkdir -p "$NUMBA_CACHE_DIR" 2>/dev/null || true
/venv/bin/python -B -W ignore - <<'PY'
import sys
sys.path.insert(0, "/repo")
import numpy, scipy, pandas, sympy, mpmath, networkx, jsonschema, yaml, click, pint, qha
import cij
from mc import explore, run
print("setup ok: python", sys.version.split()[0], "cij from", cij.__file__)
PY
