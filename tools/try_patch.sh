#!/bin/bash
# tools/try_patch.sh <patch.diff> [--tests] <ID> [<ID>...]   (env TIER=quick|thorough)
# Copies /repo's working tree to /dev/shm, applies the patch there, optionally runs the repo's
# test-suite on the copy, runs the named checks with VERIF_REPO pointing at the copy, removes the copy.
set -u
patch="$(realpath "$1")"; shift
dir=$(mktemp -d /dev/shm/cij-mut-XXXXXX)
trap 'rm -rf "$dir"' EXIT
rsync -a --exclude .git --exclude __pycache__ /repo/ "$dir"/
( cd "$dir" && patch -p1 -s < "$patch" ) || { echo "PATCH-FAILED"; exit 3; }
if [ "${1:-}" = "--tests" ]; then
  shift
  ( cd "$dir" && PYTHONPATH="$dir" /venv/bin/python -m pytest -q -p no:cacheprovider --timeout=900 -x \
      $(cat /verif/tools/baseline_deselect.txt 2>/dev/null) 2>&1 | tail -3 )
fi
rc=0
for id in "$@"; do
  out=$(cd /verif && VERIF_EVIDENCE_DIR="$dir/.evidence" VERIF_REPO="$dir" ./check "$id" --tier "${TIER:-quick}" 2>&1); r=$?
  echo "== $id exit=$r"; echo "$out" | grep -E "VIOLATION|KNOWN-FINDING|HARNESS-ERROR|violation x" | head -8
  [ $r -ne 0 ] && rc=$r
done
exit $rc
