#!/bin/bash
# run every registered check in the thorough tier, sequentially; print one line per check
cd "$(dirname "$0")/.."
export VERIF_EVIDENCE_DIR="${VERIF_EVIDENCE_DIR:-$PWD/evidence-thorough}"
for id in "$@"; do
  s=$(date +%s)
  out=$(./check "$id" --tier thorough 2>&1); rc=$?
  echo "== $id rc=$rc $(( $(date +%s) - s ))s"
  echo "$out" | grep -E "^\[|VIOLATION|KNOWN|HARNESS|violation x|part " | head -12
done
