#!/venv/bin/python
"""tools/seed_matrix.py [ids...]: apply every seeded change (seeded/<id>/patch.diff) to a scratch copy of /repo, run the
check of its property (quick tier unless TIER=thorough) and record the verdict in seeded/matrix.json."""
import concurrent.futures as cf, json, os, shutil, subprocess, sys, tempfile
ROOT = "/verif/seeded"
ids = sys.argv[1:] or sorted(d for d in os.listdir(ROOT) if os.path.isdir(os.path.join(ROOT, d)))

def one(sid):
    prop = sid.split("-")[0]
    d = tempfile.mkdtemp(prefix="cij-seed-", dir="/dev/shm")
    try:
        subprocess.run(["rsync", "-a", "--exclude", ".git", "--exclude", "__pycache__", "/repo/", d + "/"], check=True)
        r = subprocess.run(["patch", "-p1", "-s", "-i", os.path.join(ROOT, sid, "patch.diff")], cwd=d, capture_output=True, text=True)
        if r.returncode != 0:
            return sid, {"error": "patch does not apply to the current tree: " + (r.stdout + r.stderr)[-200:]}
        meta = json.load(open(os.path.join(ROOT, sid, "meta.json")))
        out = {"check": prop, "obsolete": bool(meta.get("obsolete"))}
        caught_by = []
        for n, chk in enumerate([prop] + list(meta.get("also_checks", []))):
            r = subprocess.run(["./check", chk, "--tier", os.environ.get("TIER", "quick")], cwd="/verif",
                               env=dict(os.environ, VERIF_REPO=d, VERIF_EVIDENCE_DIR=d + "/.ev", VERIF_NPROC="6"), capture_output=True, text=True)
            sigs = [l.strip().split(": ")[1] for l in r.stdout.splitlines() if l.startswith("  violation x")]
            if n == 0:
                out.update({"exit": r.returncode, "caught": r.returncode == 1, "signatures": sorted(set(sigs))[:6]})
            else:
                out.setdefault("other_checks", {})[chk] = {"exit": r.returncode, "signatures": sorted(set(sigs))[:3]}
            if r.returncode == 1:
                caught_by.append(chk)
        out["caught_by"] = caught_by
        return sid, out
    finally:
        shutil.rmtree(d, ignore_errors=True)

with cf.ThreadPoolExecutor(3) as ex:
    res = dict(ex.map(one, ids))
path = os.path.join(ROOT, "matrix.json")
old = json.load(open(path)) if os.path.exists(path) else {}
old.update(res)
json.dump(old, open(path, "w"), indent=1, sort_keys=True)
for k in sorted(res):
    print(k, res[k].get("exit"), ",".join(res[k].get("caught_by", [])) or "-", res[k].get("error", ""), (res[k].get("signatures") or [""])[0][:100])
