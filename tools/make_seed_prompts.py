#!/venv/bin/python
"""tools/make_seed_prompts.py <round> <worktree-prefix> <round-text-file>: write /tmp/seedprompts/CNN-r<round>.txt for all 20
properties from the round-1 prompt of each property (property record + task), the worktree prefix (e.g. /tmp/w5) and a
round-specific paragraph, followed by the list of all changes stored so far under /verif/seeded (title, what breaks, needs).
The prompts contain nothing from /verif except this list of earlier mechanisms."""
import glob, json, os, re, sys
rnd, prefix, textfile = sys.argv[1], sys.argv[2], sys.argv[3]
round_text = open(textfile).read().strip()
for i in range(1, 21):
    pid = "C%02d" % i
    base = open(f"/tmp/seedprompts/{pid}.txt").read()
    base = base.replace(f"/tmp/wt-{pid}", f"{prefix}-{pid}")
    lines = []
    for d in sorted(glob.glob(f"/verif/seeded/{pid}-*")):
        m = json.load(open(d + "/meta.json"))
        t = str(m.get("title", ""))[:200]
        w = str(m.get("what_it_breaks", ""))[:260].replace("\n", " ")
        n = str(m.get("needs", ""))[:260].replace("\n", " ")
        lines.append(f"- {t}: {w} (needed: {n})")
    out = base.rstrip() + "\n\n" + round_text.replace("{N}", str(len(lines))) + "\nEarlier changes:\n" + "\n".join(lines) + "\n"
    open(f"/tmp/seedprompts/{pid}-r{rnd}.txt", "w").write(out)
print("written")
