#!/bin/bash
# every quick check under several VERIF_SEED values; prints only non-zero exits
cd "$(dirname "$0")/.."
export VERIF_EVIDENCE_DIR=/dev/shm/ev-seeds
for seed in ${SEEDS:-1 2 3}; do
  for i in $(seq -w 1 20); do
    out=$(VERIF_SEED=$seed ./check C$i 2>&1); rc=$?
    [ $rc -ne 0 ] && { echo "seed=$seed C$i rc=$rc"; echo "$out" | grep -E "violation x|HARNESS|VIOL" | head -5; }
  done
  echo "seed $seed done"
done
rm -rf /dev/shm/ev-seeds
