#!/venv/bin/python
"""tools/refactor_matrix.py [ids...]: apply every behaviour-preserving refactoring (refactors/<id>/patch.diff) to a scratch
copy of /repo and run ALL registered quick checks against it; any exit != 0 is an alarm on code where the properties hold
(a defect of the harness, to be analysed).  Results in refactors/matrix.json."""
import concurrent.futures as cf, json, os, shutil, subprocess, sys, tempfile
ROOT = "/verif/refactors"
ids = sys.argv[1:] or sorted(d for d in os.listdir(ROOT) if os.path.isdir(os.path.join(ROOT, d)))
CHECKS = os.environ.get("CHECKS", "").split() or ["C%02d" % i for i in range(1, 21)]

def one(rid):
    d = tempfile.mkdtemp(prefix="cij-rf-", dir="/dev/shm")
    out = {}
    try:
        subprocess.run(["rsync", "-a", "--exclude", ".git", "--exclude", "__pycache__", "/repo/", d + "/"], check=True)
        r = subprocess.run(["patch", "-p1", "-s", "-i", os.path.join(ROOT, rid, "patch.diff")], cwd=d, capture_output=True, text=True)
        if r.returncode != 0:
            return rid, {"error": "patch does not apply: " + (r.stdout + r.stderr)[-200:]}
        for c in CHECKS:
            r = subprocess.run(["./check", c], cwd="/verif", env=dict(os.environ, VERIF_REPO=d, VERIF_EVIDENCE_DIR=d + "/.ev", VERIF_NPROC="5"),
                               capture_output=True, text=True)
            if r.returncode != 0:
                lines = [l.strip()[:300] for l in r.stdout.splitlines() if l.startswith(("  violation", "HARNESS-ERROR"))]
                out[c] = {"exit": r.returncode, "lines": lines[:4]}
        return rid, {"alarms": out, "silent": not out}
    finally:
        shutil.rmtree(d, ignore_errors=True)

with cf.ThreadPoolExecutor(3) as ex:
    res = dict(ex.map(one, ids))
path = os.path.join(ROOT, "matrix.json")
old = json.load(open(path)) if os.path.exists(path) else {}
for k, v in res.items():
    if os.environ.get("CHECKS") and k in old and "alarms" in old[k] and "alarms" in v:
        merged = {c: a for c, a in old[k]["alarms"].items() if c not in CHECKS}
        merged.update(v["alarms"])
        v = {"alarms": merged, "silent": not merged}
    old[k] = v
json.dump(old, open(path, "w"), indent=1, sort_keys=True)
for k in sorted(res):
    print(k, "SILENT" if res[k].get("silent") else json.dumps(res[k])[:600])
