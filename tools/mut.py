#!/venv/bin/python
"""tools/mut.py <relpath> <old> <new> [--tests] ID [ID...]: apply a one-string replacement to a scratch copy of
/repo, optionally run the repo's own tests there, run the named checks against it, delete the copy."""
import os, shutil, subprocess, sys, tempfile
rel, old, new, *rest = sys.argv[1:]
tests = "--tests" in rest
ids = [r for r in rest if r != "--tests"]
d = tempfile.mkdtemp(prefix="cij-mut-", dir="/dev/shm")
try:
    subprocess.run(["rsync", "-a", "--exclude", ".git", "--exclude", "__pycache__", "/repo/", d + "/"], check=True)
    p = os.path.join(d, rel)
    s = open(p).read()
    old = old.encode().decode("unicode_escape"); new = new.encode().decode("unicode_escape")
    if s.count(old) < 1:
        sys.exit(f"pattern not found in {rel}")
    open(p, "w").write(s.replace(old, new, 1))
    if tests:
        r = subprocess.run(["/venv/bin/python", "-m", "pytest", "-q", "-p", "no:cacheprovider", "--timeout=900"], cwd=d,
                           env=dict(os.environ, PYTHONPATH=d), capture_output=True, text=True)
        print("tests:", r.stdout.strip().splitlines()[-1])
    for i in ids:
        r = subprocess.run(["./check", i, "--tier", os.environ.get("TIER", "quick")], cwd="/verif",
                           env=dict(os.environ, VERIF_REPO=d, VERIF_EVIDENCE_DIR=d + "/.ev"), capture_output=True, text=True)
        lines = [l for l in r.stdout.splitlines() if l.startswith(("VIOLATION", "KNOWN", "HARNESS", "  violation"))]
        print(f"== {i} exit={r.returncode}", *lines[:4], sep="\n   ")
finally:
    shutil.rmtree(d, ignore_errors=True)
