#!/venv/bin/python
"""tools/campaign.py mutants/own.json [ids...]: run every mutant against the checks of the properties it names;
writes mutants/own.log.json (mutant, repo tests unchanged?, verdict per check)."""
import json, os, shutil, subprocess, sys, tempfile, concurrent.futures as cf
path = sys.argv[1]
only = set(sys.argv[2:])
muts = [m for m in json.load(open(path)) if not only or m["id"] in only]
TESTS = os.environ.get("CAMPAIGN_TESTS", "0") == "1"

def one(m):
    d = tempfile.mkdtemp(prefix="cij-mut-", dir="/dev/shm")
    rec = {"id": m["id"], "what": m["what"], "checks": {}}
    try:
        subprocess.run(["rsync", "-a", "--exclude", ".git", "--exclude", "__pycache__", "/repo/", d + "/"], check=True)
        p = os.path.join(d, m["file"])
        s = open(p).read()
        if s.count(m["old"]) < 1:
            rec["error"] = "pattern not found"
            return rec
        open(p, "w").write(s.replace(m["old"], m["new"], 1))
        if TESTS:
            r = subprocess.run(["/venv/bin/python", "-m", "pytest", "-q", "-p", "no:cacheprovider", "--timeout=900"], cwd=d,
                               env=dict(os.environ, PYTHONPATH=d), capture_output=True, text=True)
            rec["tests"] = r.stdout.strip().splitlines()[-1]
        for i in m["prop"]:
            r = subprocess.run(["./check", i, "--tier", os.environ.get("TIER", "quick")], cwd="/verif",
                               env=dict(os.environ, VERIF_REPO=d, VERIF_EVIDENCE_DIR=d + "/.ev", VERIF_NPROC="4"), capture_output=True, text=True)
            sigs = [l.strip()[:160] for l in r.stdout.splitlines() if l.startswith("  violation")]
            rec["checks"][i] = {"exit": r.returncode, "sigs": sigs[:3]}
    finally:
        shutil.rmtree(d, ignore_errors=True)
    return rec

with cf.ThreadPoolExecutor(4) as ex:
    recs = list(ex.map(one, muts))
log = path.replace(".json", ".log.json")
old = {r["id"]: r for r in json.load(open(log))} if os.path.exists(log) else {}
for r in recs:
    old[r["id"]] = r
json.dump(sorted(old.values(), key=lambda r: r["id"]), open(log, "w"), indent=1)
for r in recs:
    print(r["id"], r.get("tests", ""), {k: v["exit"] for k, v in r["checks"].items()}, r.get("error", ""))
