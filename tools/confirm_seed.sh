#!/bin/bash
# tools/confirm_seed.sh <change-dir> <ID> [<check ids>...]
# Confirms a seeded change in a fresh scratch worktree: demo passes without / fails with the patch, repo tests unchanged,
# then runs the named checks (default: <ID>) against the patched worktree.  Prints a JSON summary line.
set -u
src="$(realpath "$1")"; id="$2"; shift 2
checks=("$@"); [ ${#checks[@]} -eq 0 ] && checks=("$id")
wt=$(mktemp -d /tmp/cw-XXXXXX); rmdir "$wt"
git -C /repo worktree add -q --detach "$wt" HEAD || exit 3
trap 'git -C /repo worktree remove --force "$wt" >/dev/null 2>&1; rm -rf "$wt"' EXIT
orig=$(grep -o '/tmp/w[t234567]-C[0-9]*' "$src/demo.py" | head -1)
demo="$wt/.demo.py"; sed "s#/tmp/w[t234567]-C[0-9]*#$wt#g" "$src/demo.py" > "$demo"
run_demo() { ( cd "$wt" && PYTHONPATH="$wt" timeout 900 /venv/bin/python -B -W ignore "$demo" >/dev/null 2>&1 ); echo $?; }
d0=$(run_demo)
( cd "$wt" && git apply "$src/patch.diff" ) || { echo "{\"dir\":\"$src\",\"error\":\"patch does not apply\"}"; exit 3; }
d1=$(run_demo)
tests=""
if [ "${SKIP_TESTS:-0}" != "1" ]; then
  tests=$( cd "$wt" && PYTHONPATH="$wt" /venv/bin/python -m pytest -q -p no:cacheprovider --timeout=900 -rA 2>/dev/null | grep -E "^(PASSED|FAILED|ERROR) " | sort | md5sum | cut -c1-12 )
fi
res=""
for c in "${checks[@]}"; do
  out=$(cd /verif && VERIF_REPO="$wt" VERIF_EVIDENCE_DIR="$wt/.ev" ./check "$c" --tier "${TIER:-quick}" 2>&1); rc=$?
  sig=$(echo "$out" | grep -m1 "violation x" | sed 's/"/'"'"'/g' | cut -c1-200)
  res="$res\"$c\":{\"exit\":$rc,\"first\":\"$sig\"},"
done
echo "{\"dir\":\"$src\",\"demo_clean\":$d0,\"demo_patched\":$d1,\"tests_md5\":\"$tests\",\"checks\":{${res%,}}}"
