#!/venv/bin/python
"""tools/store_seeds.py <round> <confirm-log> [<confirm-log>...]: copy confirmed seeded changes (lines of tools/confirm_seed.sh
output) into /verif/seeded/<ID>-<n>/ with patch.diff, the demonstration and meta.json."""
import glob, json, os, re, shutil, sys
rnd = int(sys.argv[1])
head = os.popen("git -C /repo rev-parse --short HEAD").read().strip()
for log in sys.argv[2:]:
    for line in open(log):
        if not line.startswith("{"):
            continue
        r = json.loads(line)
        src = r["dir"]
        if not (r["demo_clean"] == 0 and r["demo_patched"] != 0 and r["tests_md5"] == "d6084dd35006"):
            print("NOT CONFIRMED", src, r); continue
        pid = re.search(r"-(C\d\d)-out", src).group(1)
        n = 1
        while os.path.exists(f"/verif/seeded/{pid}-{n}"):
            # already stored?
            if os.path.exists(f"/verif/seeded/{pid}-{n}/patch.diff") and open(f"/verif/seeded/{pid}-{n}/patch.diff").read() == open(src + "/patch.diff").read():
                n = None; break
            n += 1
        if n is None:
            print("already stored", src); continue
        dst = f"/verif/seeded/{pid}-{n}"
        os.makedirs(dst)
        for f in os.listdir(src):
            if f.endswith((".py", ".diff", ".sh", ".txt", ".yaml", ".dat")) and os.path.getsize(os.path.join(src, f)) < 300000:
                shutil.copy(os.path.join(src, f), dst)
        meta = json.load(open(src + "/meta.json")) if os.path.exists(src + "/meta.json") else {}
        meta.setdefault("property", pid)
        meta["round"] = rnd
        meta["source"] = "independent sub-agent given only the property record, a scratch worktree, a persona and a list of what earlier rounds had tried"
        meta["confirmed_by_me"] = {"worktree": f"fresh git worktree of /repo HEAD {head} under /tmp, removed afterwards", "demo_exit_without_patch": r["demo_clean"],
                                   "demo_exit_with_patch": r["demo_patched"], "repo_tests_pass_fail_list_md5_with_patch": r["tests_md5"],
                                   "baseline_md5": "d6084dd35006", "command": f"tools/confirm_seed.sh <dir> {pid}"}
        meta["first_run_of_checks"] = {k: {"exit": v["exit"], "first_violation": v["first"].strip()} for k, v in r["checks"].items()}
        json.dump(meta, open(dst + "/meta.json", "w"), indent=1)
        print("stored", src, "->", dst, meta["first_run_of_checks"])
